#!/venv/bin/python
"""Regenerates MANIFEST.json from the table below and validates it."""
import json
from pathlib import Path

V = Path(__file__).resolve().parents[1]
ALL = [f"C{i:02d}" for i in range(1, 21)]

# pid -> (level text, level note, technique, design ref)
CLAIMED = {
    "C19": (
        "Coq theorems (unbounded, lia): overlap symmetric; overlap iff same name and a common base; overlap "
        "length = size of the intersection; abut iff gap 0; trichotomy; all-against-all scan = the overlapping "
        "position pairs i<j, each once. The model functions are tied to /repo on every run by evaluating them "
        "inside Coq on every interval pair over a bounded range plus random assemblies and comparing with "
        "Fragment.overlaps/overlap_length/abuts/gap_between and Assembly.find_overlapping_fragments "
        "C19_report_blocks: the STDERR report of asm-format --qc-overlaps (the command is inside the model, Model/AsmFormat.v) "
        "is silent exactly when the scan finds no pair, else the header line and ONE block per pair of the scan, identical blocks "
        "not merged; every invocation (STDIN, two files, same-named files, --name) is compared with the model byte for byte -- "
        "written output and STDERR -- and parsed back by an independent oracle.",
        "Trusted: Coq kernel+VM; hand-written Gallina reading of fragment.py/assembly.py (scan order, None for "
        "empty); serializer; correspondence is differential on generated cases, not a proof about Python. "
        "Print Assumptions: closed under the global context for all 9 theorems.",
        "Coq proof (lia, induction) + in-Coq vm_compute correspondence with /repo + brute-force oracle",
        "DESIGN.md 6/C19",
    ),
}


CORR = ("The model is tied to /repo on every run: the harness runs the implementation from /repo/src on generated inputs, "
        "serialises inputs and observations to a Coq file and Coq itself (vm_compute) compares the model's result with each "
        "observation; an independent Python oracle states the property directly for failing-input search (also on what the command-line "
        "scripts write, on several input files, after I/O errors and on repeated calls in one process, where the property's "
        "observable passes through them). ")
NOTE = ("Trusted: Coq 8.16.1 kernel + VM; the hand-written Gallina reading of the Python code (DESIGN.md 3.2, App. C); the "
        "serializer and Corr comparison functions; generator reach (counts in the evidence). Print Assumptions for every "
        "property theorem: Closed under the global context (copied into the evidence on every run). ")
CLAIMED.update({
    "C12": ("Coq theorems for all scaffolds with rows >= 1 bp and all queries 1<=a<=b, no size bound: find_overlaps never "
            "fails nor runs out of fuel, satisfies the relational brute-force spec (None iff no fragment row meets the query; else the run from the "
            "first to the last fragment row meeting it with their scaffold coordinates), the spec determines the result, the "
            "run is convex, and find_overlaps = the executable linear scan (filter + strip terminal gaps). The pinned "
            "commit's variant is refuted (IndexError) and was repaired by a fix: commit. " + CORR,
            NOTE + "Hypothesis pos_rows excludes zero-length gap rows (compared with the model only).",
            "Coq proof (binary-search invariant, induction) + in-Coq correspondence, exhaustive on small scaffolds x all queries",
            "DESIGN.md 6/C12"),
    "C18": ("Coq theorem by invariant: for every source scaffold (rows >= 1 bp, distinct row objects), bait, lookup result and "
            "every finite sequence over {discard_start, discard_end, trim_large_overhangs(e), trim_fragment(first|last, keep "
            "flags)} that the methods accept, the result satisfies Inv: rows empty, or a contiguous run of the source in which "
            "only the terminal fragments are shortened copies that kept their inner end, with start/end the scaffold "
            "coordinates of what is left; hence end-start+1 = total row length, no terminal gap; the what-if overhangs equal "
            "the overhang after really discarding; bait overlaps are interval arithmetic. C18_pipeline_Inv lifts it to real runs: "
            "every result stored by remap_to_input (after all lookups, all resolver rounds and all cuts, for every Pretext map "
            "over every input with rows >= 1 bp) satisfies Inv for the input scaffold it came from. " + CORR,
            NOTE + "Python object identity is modelled by row ids (source ids >= 0 distinct; trimmed copies -1/-2).",
            "Coq proof (invariant preserved by every operation, induction over the op list) + in-Coq correspondence after every op",
            "DESIGN.md 6/C18"),
    "C20": ("Coq theorems for every string / every list, no bound: the (repaired) natural key never fails, alternates text and "
            "number so no mixed-type comparison can occur, the key order is a total order, sorting and the rank-then-name sort "
            "succeed, return a sorted permutation and give the same key sequence from every initial order (stable on ties), "
            "decimal numbers and I..IV compare by value, an unloc sorts between its chromosome and the next; the repaired key "
            "equals the old one wherever the old one was defined; the old one fails on IIII (fixed by a fix: commit). " + CORR,
            NOTE + "ASCII only; int() of more than 4300 digits (CPython limit) not modelled.",
            "Coq proof (induction on the tokenizer, lexicographic order lemmas, sorted-permutation uniqueness) + in-Coq correspondence, exhaustive on short names",
            "DESIGN.md 6/C20"),
    "C04": ("Model of index_fasta_file (line scanner, flush buffer, run merging, store_info), FastaIndex.sequence_bytes and .fai "
            "rows, compared inside Coq with the implementation on well-formed layouts (exhaustive tiny ones + random, LF/CRLF, "
            "with/without final newline, all buffer sizes of the grid) and on a malformed stream; oracle = faidx quintuples and "
            "run-length tiling computed from the records, every interval of short records through random access, stream-back. "
            "Theorems in this file so far: the pinned commit's scanner drops the last residue without final newline (refuted, "
            "fixed by a fix: commit); the general index/random-access theorems are in progress (Proofs/FastaIndex.v).",
            NOTE, "in-Coq correspondence + naive oracle; Coq theorems for the index being added", "DESIGN.md 6/C04"),
    "C14": ("Coq theorems, unbounded: Scaffold.reverse twice = identity on rows; one reversal keeps count, length, gaps, "
            "intervals, names, tags and negates every strand in inverted order; complement is an involution on all 256 bytes; "
            "reverse_complement twice = identity on every byte string; for every buffer size the minus-strand chunk iterator "
            "delivers the reverse complement of the forward one (chunkwise: reversed list of reverse-complemented chunks). "
            "Streaming a reversed scaffold vs the original is compared with /repo and judged by an oracle; strand-0 fragments "
            "violate it (known finding, listed in known_findings.json). " + CORR,
            NOTE + "The chunk theorems assume good_access (random access returns residues s..e), shown satisfiable and proved for rendered files under C04.",
            "Coq proof (finite sweep over ascii + list induction + chunk arithmetic) + in-Coq correspondence + streaming oracle",
            "DESIGN.md 6/C14"),
})


PIPE = ("The whole remapping pipeline (lookup, labelling, trim_large_overhangs, found / found-more-than-once bookkeeping, the "
        "overhang resolver rounds, cut_fragments + QC, haplotig/unloc renaming, re-adding missing contigs, fusion by (tag, "
        "haplotype, name), ChrNamer, smart sort, junction statistics) is one executable Gallina function `remap`; on every run "
        "Coq compares its full output (assemblies, scaffold names/tags/haplotypes/ranks/original names/rows, cuts, breaks, "
        "joins, per-assembly stats, or error) with BuildAssembly on several hundred generated (input, Pretext) pairs plus the "
        "repository's specimens; the AGP / TPF files the command itself writes for the case are read back and judged by the "
        "property's oracle as well (no file opened twice, scaffolds as written). ")
CLAIMED.update({
    "C01": ("Coq theorem C01_conservation, for ALL input assemblies with well-formed pairwise-distinct contigs and ALL Pretext "
            "assemblies, texel sizes, prefixes and tags, no size bound: if `remap` returns Ok then for every contig name and base "
            "the number of output fragments covering it equals the number of input contigs covering it, and every output "
            "fragment is a sub-interval of an input contig of that name (proved by an invariant carried through lookups, every "
            "resolver round, the cuts with their QC (qc_partition), the re-adding of unfound contigs and a permutation argument "
            "for fusing/naming/sorting). C01_never_out_of_fuel: the model's fuelled loops (binary search, gap stripping, the "
            "'while multi' resolver loop) never run out of fuel, so the resolver terminates on every input and an Err of the "
            "model always stands for a Python exception. " + PIPE + "Oracle: per-base coverage sweep.",
            NOTE + "Python object identity is modelled by row ids; dict/set order by insertion-ordered lists.",
            "Coq proof (pipeline invariant, ~4000 lines) + in-Coq correspondence of the whole pipeline + coverage oracle",
            "DESIGN.md 6/C01, 13"),
    "C02": ("THE CAPSTONE C02_end_to_end / C02_end_to_end_order: ONE statement about the final output of `remap` -- for every untagged map that "
            "tiles the scaffolds it shows (any order / orientation / grouping of pieces >= 2 texels, scaffolds absent at will, texel >= 1 bp, stranded "
            "untagged input contigs) the whole pipeline completes and every piece with a contig base in its core has a result with the C18 invariant "
            "and core_kept whose rows sit as one contiguous block (reversed exactly for minus-strand pieces) in a scaffold of an output assembly; "
            "two such pieces of one Pretext scaffold lie in one output scaffold in Pretext order; the hypothesis on input strands is shown necessary. "
            "PAINTED maps: C02_completion_painted (remap_to_input completes on tiling maps with untagged or Painted baits) and C02_painted_maps_complete "
            "(the whole pipeline, chromosome naming included, completes; three further hypotheses each shown necessary by a computed counterexample); "
            "C02_end_to_end_painted(_order): the capstone for maps with untagged or Painted baits; C02_end_to_end_painted_named: a painted piece lands in a "
            "rank-1 scaffold made from its own Pretext scaffold, named <prefix><k>[_unloc_<m>] (one more hypothesis, shown necessary). "
            "TAGGED maps: C02_completion_tagged -- remap_to_input completes on every tiling map whose tags are consistent per Pretext scaffold (a decidable "
            "condition on the tags alone: one name tag, one haplotype tag, Primary only with a haplotype tag, Unloc only when painted), each clause shown necessary. "
            "TWO HAPLOTYPES: C02_two_haplotype_maps_complete -- the whole pipeline completes on every well-paired (h1 h2 h1 h2 ...) painted two-haplotype tiling map; "
            "the pairing is needed (C02_two_haplotype_maps_need_pairing). C02_cores_land_any_tags: whenever the run completes, with ANY tags, every core lands as one block. "
            "Coq theorems about the remapping stage (remap_to_input), no size bound, for EVERY PretextView-model edit script and more: "
            "(1) C02_completion: for every map that tiles every scaffold it shows (ascending baits cover 1..E without hole or overlap, "
            "pieces >= 2 texels when a scaffold is shown in more than one piece, any order / orientation / grouping, any subset of "
            "scaffolds absent, texel >= 1 bp, untagged baits, well-formed untagged input) remapping returns Ok -- no lookup fails, "
            "the resolver loop ends, every shared contig is cut into abutting pieces that pass the QC; the hypothesis 'input contigs "
            "untagged' was forced by the proof and the statement without it is refuted in Coq and reproduced on /repo (edge "
            "behaviour, DESIGN 13.5). (2) C02_core_kept: for every map with pairwise disjoint baits and every configuration, if "
            "remapping completes then the result of each piece is ONE contiguous collinear run of its source scaffold's rows with "
            "the input's internal gaps (C18 invariant) that still holds every contig base lying >= 3 error lengths inside the "
            "piece; a piece without result has no such base. (3) C02_deep_cut_exact: two abutting pieces and a contig overlapping "
            "each in >= 3 error lengths: the contig is split exactly at the Pretext coordinate (C02_two_piece_cut gives the "
            "complete output for the one-cut script, with the margin shown sharp). Orientation = input x piece: to_scaffold_rows "
            "(C14). (4) C02_pretext_order(_pairs): for EVERY map the pieces taking part are, in store order, a sub-sequence of the map's baits "
            "in file order and every fused output scaffold is the join of the pieces with its key in that order (join gap between "
            "them, left-overs last): pieces sharing a destination follow each other in Pretext order. NOT proved: these clauses as "
            "ONE composed statement down to the renamed, sorted output assemblies (renaming and sorting keep rows: C07/C01 theorems); "
            "the generator's reading of PretextView (texel grid, floor coordinates) is an assumption. On every run the oracle judges the full statement on "
            "generated edit scripts (cut sets on the texel grid, pieces >= 2 texels, any permutation/orientation/grouping, "
            "floor/ceil texel counts, sub-texel scaffolds, texel from 1 bp, both strands, boundary sweeps around 1, 2, 3 error "
            "lengths). " + PIPE,
            NOTE + "The PretextView model (texel grid, floor coordinates) is the generator's reading of PretextView.",
            "Coq proof (completion on tiling maps, core retention on disjoint maps, exact deep cuts: ~7000 lines over the pipeline stages) + in-Coq correspondence of the pipeline + affine-core oracle",
            "DESIGN.md 6/C02, 13"),
    "C03": ("Coq theorems, unbounded: for every file/index through which the named records can be read (good_access, proved for "
            "every well-formed rendered FASTA in C04), every buffer >= 1 and line length >= 1, write_scaffold = '>'name LF + "
            "wrap_L(concatenated row bytes: interval, reverse complement for strand -1, gap-length gap characters); the wrapped "
            "body has lines of exactly L, a last line of 1..L, none empty; write_assembly concatenates in scaffold order; residues "
            "written = sum of row lengths = last AGP object end (C06). C03_index_then_stream composes this with C04: for every "
            "well-formed rendered FASTA and the index the real indexer builds from it, no access premise is left. " + CORR + "Naive re-implementation from the record strings as oracle.",
            NOTE + "End to end through the CLI: generated (FASTA, edit script) pairs through pretext-to-asm -o x.fa, directly and "
            "through a symbolic link re-pointed at an older FASTA between two runs; every FASTA written is compared with its AGP "
            "companion applied naively to the FASTA the run was given (oracle only; no model term for the CLI family).",
            "Coq proof (wrap state machine, chunk algebra) + in-Coq correspondence of FastaStream output + naive oracle",
            "DESIGN.md 6/C03"),
    "C04": ("Coq theorems, unbounded: for every well-formed FASTA layout (any width >= 1, LF/CRLF, final newline present or "
            "absent, descriptions, any residues) and every buffer size, index_fasta = (faidx quintuples, run-length tiling) "
            "(C04_index_spec); random access through that index returns residues s..e for all 1<=s<=e<=n (C04_random_access); "
            "duplicate names and empty files are rejected; C04_stream_back: index the file, stream the derived assembly back "
            "through that index = every record in order, wrapped at L, residues outside ACGTacgt replaced by the gap character, "
            "for every index buffer, stream buffer and line length. Record names are what bytes.split() takes as a word (the model "
            "distinguishes the white space of bytes methods from that of str methods: FS GS RS US are name bytes for the indexer "
            "but separators for the .fai reader, which then fails loudly -- C17/C15). The pinned commit's scanner is "
            "refuted (last residue dropped without final newline; fixed). " + CORR,
            NOTE, "Coq proof (line-scanner fold vs render, seek arithmetic) + in-Coq correspondence (exhaustive tiny layouts + random + malformed stream)",
            "DESIGN.md 6/C04"),
    "C05": ("Coq theorems for every assembly satisfying the stated well-formedness (agp_wf / tpf_wf, satisfiable, examples "
            "proved): parse_agp(format_agp a) = a, canonical text reproduced byte for byte, the same for TPF, AGP->TPF->parse = "
            "drop_tags, and for EVERY text: a successful parse has exactly one row per non-blank non-comment line. agp_wf allows "
            "empty tag columns between tags (only the last tag must be non-empty and not end in white space). " + CORR +
            "Line-level corruptions are compared with the model (Ok/Err and value). THE COMMAND asm-format is inside the model "
            "(Model/AsmFormat.v: cli, process_fh, report_overlaps, Fragment.__str__): C05_asm_format_identity -- on any number of "
            "canonical AGP files, whatever names / --name / --qc-overlaps, what it writes is their concatenation byte for byte; "
            "C05_asm_format_concatenates -- files are converted one by one in command-line order; C05_qc_flag_does_not_change_output. "
            "The command is run on 1-3 input files to -o FILE, to STDOUT, with --qc-overlaps, and on STDIN with -i and --name; written "
            "output and STDERR of every invocation are compared byte for byte with the model, and every row of every input must arrive (oracle).",
            NOTE + "Text iteration as with io.StringIO (LF-terminated lines); ASCII; int() as in Py/Dec.v.",
            "Coq proof (split/join/strip lemmas, fold invariant) + in-Coq correspondence on generated and corrupted texts",
            "DESIGN.md 6/C05"),
    "C06": ("Coq theorems for EVERY assembly (hence every remapped or FASTA-derived one): the lines format_agp writes are the "
            "decimal rendering of a numeric view that tiles each object from 1, numbers parts 1,2,3.., has object span = "
            "component span on W lines and = stated length on U lines, ends at the scaffold length, and carries U/type/yes; "
            "format_agp is total on valid strands. " + CORR + "Independent AGP column checker as oracle, also on asm-format, on the .agp cache of indexed FASTA files and on whatever cache file an indexing run leaves behind when it meets an I/O error at its k-th file operation.",
            NOTE, "Coq proof (induction over rows) + in-Coq correspondence + AGP column checker", "DESIGN.md 6/C06"),
    "C07": ("Coq theorems: C07_gap_provenance, end to end through `remap` for ALL inputs, ALL Pretext maps (garbage included), "
            "all texel sizes and configurations: every gap row of every output scaffold is the configured join gap or a gap "
            "row (same length and type) of the input; on the fusion step: a fused scaffold never begins or ends with a gap, "
            "every fusion boundary carries the join gap, two fragments are directly adjacent only inside one piece, and in "
            "left-over rows only if they were adjacent rows of the input (JoinGaps.v); C07_output_scaffolds_well_formed: every "
            "output scaffold of every completed run, with no hypothesis at all, is non-empty and begins and ends with a fragment; C18 (no terminal gap in any overlap "
            "result after any edit sequence), C12 (lookups strip terminal gaps). C07_neighbour_gaps, END TO END through `remap` for "
            "ALL inputs (rows >= 1 bp) and ALL maps: two consecutive fragments of an output scaffold with the gap rows between them "
            "are a join (exactly the join gap), or pieces of two contigs that were consecutive in ONE input scaffold with exactly the "
            "same gap run between them (either reading direction), or -- inside a left-over scaffold only -- two never-found contigs "
            "with a found one between them, separated by the single input gap that preceded the second (this third case was FOUND BY "
            "THE PROOF: the two-case statement is refuted in Coq, C07_two_case_statement_refuted, and reproduced on /repo; it cannot "
            "arise on maps that tile every scaffold: C07_pretextview_gaps proves, for every tiling map (the hypotheses of C02_completion), the "
            "TWO-case statement -- exactly the join gap or exactly the input gap run of the same two neighbours -- which is the property's "
            "second sentence for maps PretextView can produce, and C07_pretextview_gaps_any_tags the same for tiling maps with ANY tags whenever the run completes; DESIGN 13.5). The same three-case "
            "statement is the oracle that walks every output scaffold against the input on every generated case (PretextView-model "
            "maps: first two cases only). The pinned commit's gapless left-over join is refuted "
            "in Coq, reproduced, fixed, and kept in the corpus. " + PIPE,
            NOTE, "Coq proof end to end (gap provenance, neighbour gaps, well-formed outputs; fold invariants of the fusion) + in-Coq correspondence of the pipeline + neighbour oracle", "DESIGN.md 6/C07, 13"),
    "C08": ("Coq theorem C08_null_map_identity, END TO END through `remap`, no size bound: for every input of well-formed "
            "scaffolds with distinct names and contigs, every texel size and every null map (each scaffold whole, forward, "
            "unpainted, untagged, its bait reaching the last row and ending within one texel of the scaffold end; any subset of "
            "scaffolds absent from the map) remapping succeeds, the only output assembly is the primary one (curated), cuts = "
            "breaks = joins = 0, all per-assembly counts (0,0), and its scaffolds are exactly the input's (names, fragments, "
            "gaps, row order, orientation), rank 3, untagged. Found while proving: scaffolds absent from the map lost all but "
            "the last of a run of consecutive gap rows (the theorem needed their exclusion) -- reproduced on /repo, repaired by "
            "a fix: commit, legacy behaviour refuted in Coq (C08_legacy_refuted). C08_painted_null_map: the same maps with every "
            "bait Painted, in any Pretext order: content unchanged, the shown scaffolds are prefix1..prefixk at rank 1 numbered "
            "by non-increasing sequence length with ties in Pretext order, absent scaffolds unchanged at rank 3. " + PIPE,
            NOTE, "Coq proof end to end (1300 lines over the pipeline stages) + in-Coq correspondence of the pipeline + identity oracle", "DESIGN.md 6/C08, 13"),
    "C09": ("Coq theorems: C09_routing_end_to_end, END TO END through `remap` for all inputs and maps: every stored result with rows is "
            "written, whole and contiguous, into a scaffold of the output assembly keyed by its tag if it has one, else by its haplotype, "
            "else None (primary); the same for left-over scaffolds; conversely every scaffold of an output assembly carries that "
            "assembly's key; C09_haplotig_bait_routed / C09_contaminant_bait_routed: in terms of the tags in the Pretext file (the tag and "
            "haplotype of a result are what label_scaffold computed from its bait's and its Pretext scaffold's tags; no later stage changes "
            "them). Ingredients: label_tag_spec (FalseDuplicate > Haplotig > Contaminant incl. Target mode > none; haplotype; rank 3), "
            "Target mode monotone, labelling fails only for Unloc in an unpainted scaffold, and routing: with the repaired "
            "fusion key every piece with rows ends as a contiguous block in the fused scaffold of its own (tag, haplotype, name), "
            "which goes to the assembly keyed by that tag, else haplotype, else primary -- never a curated assembly when tagged; "
            "the pinned commit's key is refuted (fixed). " + PIPE + "Oracle follows the core contigs of every piece into the output dict.",
            NOTE + "From key to file: name_assemblies (closed form of its three branches, no scaffold lost or doubled, exact "
            "failure and name-clash conditions, all_haplotigs merged last) is proved on the model; the model of the files one "
            "run opens (pathlib names, parse_output_file, info.yaml, assembly files + .agp companions, chromosome lists, "
            "chromosome report incl. its text) is compared with the real pretext_to_asm.cli on every generated case (recording "
            "get_output_filehandle) and on real files for FASTA/AGP/TPF outputs.",
            "Coq proof (case analysis, fold invariant over the fusion) + in-Coq correspondence + routing oracle", "DESIGN.md 6/C09"),
    "C10": ("Coq theorems: C10_two_haplotype_names_end_to_end -- end to end on well-paired painted two-haplotype tiling maps, homologues share the chromosome "
            "number and the first haplotype's sequence length decides it (ties in map order); C10_names_unique_single_haplotype -- end to end through `remap`, every output assembly of every "
            "completed run has pairwise distinct scaffold names when the generated namespaces are respected and no haplotype "
            "occurs (all hypotheses on the input and the map); C10_names_unique with haplotypes under two further conditions on "
            "the fused scaffolds; fusion keys pairwise distinct for every run; a repeated name is one of three named collisions; "
            "multi-haplotype maps: a well-interleaved map gives one group per chromosome, homologues and their unlocs share the "
            "number, ranking by first-haplotype sequence length (ties in map order), lengths of other haplotypes never matter, "
            "A/B suffixes; C10_chromosome_numbers, END TO END for single-haplotype maps with pairwise distinct Pretext scaffold "
            "names: rank-1 scaffolds are named <prefix><k>[_unloc_<m>], the chromosomes (one per Pretext scaffold, unlocs "
            "included) are numbered 1..n without holes by non-increasing sequence length -- the distinct-names hypothesis "
            "forced by the proof, the statement without it refuted (C10_chromosome_numbers_need_distinct_map_names); "
            "rename_by_size = same names, objects in non-increasing length, stable; H_n / _unloc_n handed out "
            "without holes; chromosome groups numbered 1..n by non-increasing length (stable); single-haplotype grouping total "
            "and renaming names only; effect of naming on <Pretext name><suffix>; A,B,.. suffixes; output order total (C20) with "
            "unloc-between; chromosome list: one line per rank-1/2 scaffold, line shape, and for chromosomes listed as main "
            "scaffold + unlocs localised = no exactly for the unlocs with the chromosome's name (csv_groups). Multi-haplotype "
            "grouping and uniqueness beyond the stated conditions are decided by the correspondence of the pipeline model and "
            "the oracle on every case; the CSV text and the chromosome report are also compared. Two known findings that are also "
            "theorems about the model: an orphan unloc is listed as localised; two same-named tagged scaffolds of different "
            "haplotypes land in one tag-keyed assembly (found by the uniqueness proof, reproduced on /repo). A third known finding: unlocs are numbered before the "
            "overhang resolution, so an Unloc piece emptied by it leaves a hole in <chr>_unloc_1..m (corpus case, signature in known_findings.json). " + PIPE,
            NOTE, "Coq proof (label invariant through the pipeline, sorting lemmas, fold invariants) + in-Coq correspondence + naming/CSV oracle (partial for multi-haplotype)",
            "DESIGN.md 6/C10, 13"),
    "C11": ("Coq theorems: C11_breaks_joins, END TO END through `remap`: reported breaks = number of distinct input adjacencies (unordered "
            "pairs of facing contig ends of consecutive contigs) occurring in no output scaffold, reported joins = number of distinct output "
            "adjacencies occurring in no input scaffold; the set of input adjacencies is invariant under reversing (and renaming) an input "
            "scaffold. Ingredients: the canonical junction identifies the unordered pair of facing contig ends (with sides, 1-bp contigs "
            "included); reading a junction from the other side gives the same canonical junction; the junction set of a scaffold "
            "equals that of its reverse; strand 0 is an error; list-based union/difference/intersection have their set meaning; "
            "cuts = output fragments - input contigs for every completed run (from the C01 invariant); the reported "
            "haplotig-removal count = the scaffolds of the single Haplotig assembly, each of which has rows (C11_haplotig_count); the pinned commit's "
            "encoding is refuted (fixed). " + PIPE + "Oracle recounts adjacencies independently.",
            NOTE + "The haplotig-removal count is read from the info.yaml text the real cli writes (recording file handle) and compared with the haplotig scaffolds written.",
            "Coq proof (case analysis on strands, order lemmas, counting invariant) + in-Coq correspondence + adjacency oracle", "DESIGN.md 6/C11"),
    "C13": ("Coq theorems: index_fasta gives the same index and assembly for EVERY byte string and ALL buffer sizes; the sequence "
            "buffer never exceeds buffer + one line (ghost peak); forward/reverse/gap iterators deliver ceil(len/buf) chunks of "
            "at most buf residues whose concatenation is the interval / its reverse complement / N^len; the consumer writes the "
            "same bytes for any chunking; write_scaffold is buffer-size independent. " + CORR +
            "Runtime residue (measured, not proved): tracemalloc peak while indexing / streaming a 300 kb (quick) or 2 Mb record, fragment and gap with a 1000-residue buffer.",
            NOTE + "Real allocator behaviour is outside the model.",
            "Coq proof (flush-point independence, chunk arithmetic) + in-Coq correspondence + chunk-size / tracemalloc oracle", "DESIGN.md 6/C13"),
    "C15": ("Transition-system model of the cache protocol (stat/exists/open/read/write-to-temporary/replace per process, logical "
            "time stamps, crashes, any number of processes). Each run replays real FastaIndex.auto_load() executions -- crash at "
            "EVERY file operation of an indexing run, random histories, every single pre-emption of two racing processes and "
            "random 2-3 process schedules -- under a deterministic shim, feeds the observed operation trace to the model in Coq "
            "and compares each process's outcome; oracle: a completed auto-load must equal a fresh index of the current content; "
            "a quarter of the histories reach the FASTA through a symbolic link. Coq (Proofs/CacheFS.v): safety of the protocol "
            "model at completion, visible cache files are complete, stale or missing caches are rebuilt; the pinned commit's "
            "in-place rewrite is refuted (race witness). Fixed in /repo by atomic cache writes.",
            NOTE + "Runtime residue: kernel scheduling, rename atomicity and mtime granularity are as modelled (logical stamps, thread-simulated processes).",
            "in-Coq trace validation of real executions (crash/schedule enumeration) + freshness oracle; Coq safety proof of the protocol model", "DESIGN.md 6/C15"),
    "C16": ("Coq theorems about the open protocol: with --no-clobber every pre-existing file keeps its bytes, the run fails "
            "exactly at the first output (in open order) that pre-exists and names it, earlier outputs were newly created, later "
            "ones untouched, fails iff some output pre-exists; with --clobber it succeeds and every output holds what the run "
            "writes. Each run drives the real CLI in process over {FASTA, AGP, TPF} x log on/off x single/multi-assembly for all "
            "(<= 6 outputs) or sampled subsets of pre-existing files (some of them zero-length) and lets Coq compare exit status, named file and the digest "
            "of every file with the model's prediction.",
            NOTE + "That Python's mode 'x' is an atomic exclusive create is trusted; the open order is taken from a baseline run.",
            "Coq proof (induction over the open list) + in-Coq correspondence of CLI runs over subsets", "DESIGN.md 6/C16"),
    "C17": ("Formal part (Coq): make_scaffold_name is invariant under permutation of its tag set (the only place a set is "
            "iterated), indexing is buffer-size independent (C13), AGP round trip (C05) for the cache; the model is a function, "
            "so there is no hidden state. Runtime part (partial): every tag set in EVERY order against the model and each other; "
            "generated (FASTA, Pretext) pairs through the CLI in fresh processes under several PYTHONHASHSEED values, two "
            "working directories, cold/warm cache, three other index/stream buffer sizes, FASTA/AGP/TPF input, and after other in-process invocations, all output "
            "files byte-identical. One defect found and fixed (empty tag made the outcome depend on the hash seed).",
            NOTE + "Hash seed, interpreter-global state and cwd are runtime residue explored by sampling.",
            "Coq proof (permutation invariance) + in-Coq correspondence over all tag orders + CLI re-runs under varied configuration", "DESIGN.md 6/C17"),
})
NOT_YET = "check not built yet in this session (see DESIGN.md section 6 for the planned theorem and correspondence)"


def main():
    checks = []
    for pid in ALL:
        if pid not in CLAIMED:
            continue
        text, note, tech, ref = CLAIMED[pid]
        checks.append(
            {
                "property_id": pid,
                "quick_cmd": f"./check {pid} --tier quick",
                "thorough_cmd": f"./check {pid} --tier thorough",
                "evidence_file": f"/verif/evidence/{pid}.json",
                "replay_cmd_template": f"./check {pid} --replay {{path}}",
                "engine": "coq-model+correspondence",
                "level_claimed": {"category": "proof", "text": text, "design_ref": ref},
                "level_note": note,
                "technique": tech,
            }
        )
    man = {
        "version": 1,
        "setup_cmd": "cd /verif && ./check --setup",
        "hooks": {
            "guard": "TOLA_VERIF",
            "enable": "no source hooks are needed: every observation point is a public method, a written file or an exit status; ./check exports TOLA_VERIF=1 for uniformity",
            "baseline_off_cmd": "cd /repo && env -u TOLA_VERIF /venv/bin/python -m pytest -ra -q -p no:cacheprovider --timeout=900 --continue-on-collection-errors",
            "source_commits": [],
            "add_only": True,
        },
        "engines": [
            {
                "name": "coq-model+correspondence",
                "path": "/verif/coq, /verif/harness",
                "serves_properties": sorted(CLAIMED),
                "kind_free_text": "Coq 8.16 development (hand-written Gallina model + theorems) and a Python harness that evaluates the model inside Coq on the same inputs as /repo's code, with independent oracles for failing-input search",
            }
        ],
        "checks": checks,
        "notes": "Entry point ./check <id> --tier quick|thorough. Known findings: /verif/known_findings.json. Seeded mutants: /verif/seeded/.",
        "not_applicable": [{"property_id": p, "reason": NOT_YET} for p in ALL if p not in CLAIMED],
    }
    (V / "MANIFEST.json").write_text(json.dumps(man, indent=1) + "\n")
    try:
        import jsonschema

        jsonschema.validate(man, json.loads(Path("/root/.vp/MANIFEST.schema.json").read_text()))
        print("MANIFEST.json valid;", len(checks), "checks")
    except ImportError:
        print("MANIFEST.json written (jsonschema not available)")


if __name__ == "__main__":
    main()
