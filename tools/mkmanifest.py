#!/venv/bin/python
"""Regenerates MANIFEST.json from the table below and validates it."""
import json
from pathlib import Path

V = Path(__file__).resolve().parents[1]
ALL = [f"C{i:02d}" for i in range(1, 21)]

# pid -> (level text, level note, technique, design ref)
CLAIMED = {
    "C19": (
        "Coq theorems (unbounded, lia): overlap symmetric; overlap iff same name and a common base; overlap "
        "length = size of the intersection; abut iff gap 0; trichotomy; all-against-all scan = the overlapping "
        "position pairs i<j, each once. The model functions are tied to /repo on every run by evaluating them "
        "inside Coq on every interval pair over a bounded range plus random assemblies and comparing with "
        "Fragment.overlaps/overlap_length/abuts/gap_between and Assembly.find_overlapping_fragments "
        "(and asm-format --qc-overlaps stderr through an independent oracle).",
        "Trusted: Coq kernel+VM; hand-written Gallina reading of fragment.py/assembly.py (scan order, None for "
        "empty); serializer; correspondence is differential on generated cases, not a proof about Python. "
        "Print Assumptions: closed under the global context for all 8 theorems.",
        "Coq proof (lia, induction) + in-Coq vm_compute correspondence with /repo + brute-force oracle",
        "DESIGN.md 6/C19",
    ),
}


CORR = ("The model is tied to /repo on every run: the harness runs the implementation from /repo/src on generated inputs, "
        "serialises inputs and observations to a Coq file and Coq itself (vm_compute) compares the model's result with each "
        "observation; an independent Python oracle states the property directly for failing-input search. ")
NOTE = ("Trusted: Coq 8.16.1 kernel + VM; the hand-written Gallina reading of the Python code (DESIGN.md 3.2, App. C); the "
        "serializer and Corr comparison functions; generator reach (counts in the evidence). Print Assumptions for every "
        "property theorem: Closed under the global context (copied into the evidence on every run). ")
CLAIMED.update({
    "C12": ("Coq theorems for all scaffolds with rows >= 1 bp and all queries 1<=a<=b, no size bound: find_overlaps never "
            "fails, satisfies the relational brute-force spec (None iff no fragment row meets the query; else the run from the "
            "first to the last fragment row meeting it with their scaffold coordinates), the spec determines the result, the "
            "run is convex, and find_overlaps = the executable linear scan (filter + strip terminal gaps). The pinned "
            "commit's variant is refuted (IndexError) and was repaired by a fix: commit. " + CORR,
            NOTE + "Hypothesis pos_rows excludes zero-length gap rows (compared with the model only).",
            "Coq proof (binary-search invariant, induction) + in-Coq correspondence, exhaustive on small scaffolds x all queries",
            "DESIGN.md 6/C12"),
    "C18": ("Coq theorem by invariant: for every source scaffold (rows >= 1 bp, distinct row objects), bait, lookup result and "
            "every finite sequence over {discard_start, discard_end, trim_large_overhangs(e), trim_fragment(first|last, keep "
            "flags)} that the methods accept, the result satisfies Inv: rows empty, or a contiguous run of the source in which "
            "only the terminal fragments are shortened copies that kept their inner end, with start/end the scaffold "
            "coordinates of what is left; hence end-start+1 = total row length, no terminal gap; the what-if overhangs equal "
            "the overhang after really discarding; bait overlaps are interval arithmetic. " + CORR,
            NOTE + "Python object identity is modelled by row ids (source ids >= 0 distinct; trimmed copies -1/-2).",
            "Coq proof (invariant preserved by every operation, induction over the op list) + in-Coq correspondence after every op",
            "DESIGN.md 6/C18"),
    "C20": ("Coq theorems for every string / every list, no bound: the (repaired) natural key never fails, alternates text and "
            "number so no mixed-type comparison can occur, the key order is a total order, sorting and the rank-then-name sort "
            "succeed, return a sorted permutation and give the same key sequence from every initial order (stable on ties), "
            "decimal numbers and I..IV compare by value, an unloc sorts between its chromosome and the next; the repaired key "
            "equals the old one wherever the old one was defined; the old one fails on IIII (fixed by a fix: commit). " + CORR,
            NOTE + "ASCII only; int() of more than 4300 digits (CPython limit) not modelled.",
            "Coq proof (induction on the tokenizer, lexicographic order lemmas, sorted-permutation uniqueness) + in-Coq correspondence, exhaustive on short names",
            "DESIGN.md 6/C20"),
    "C04": ("Model of index_fasta_file (line scanner, flush buffer, run merging, store_info), FastaIndex.sequence_bytes and .fai "
            "rows, compared inside Coq with the implementation on well-formed layouts (exhaustive tiny ones + random, LF/CRLF, "
            "with/without final newline, all buffer sizes of the grid) and on a malformed stream; oracle = faidx quintuples and "
            "run-length tiling computed from the records, every interval of short records through random access, stream-back. "
            "Theorems in this file so far: the pinned commit's scanner drops the last residue without final newline (refuted, "
            "fixed by a fix: commit); the general index/random-access theorems are in progress (Proofs/FastaIndex.v).",
            NOTE, "in-Coq correspondence + naive oracle; Coq theorems for the index being added", "DESIGN.md 6/C04"),
    "C14": ("Coq theorems, unbounded: Scaffold.reverse twice = identity on rows; one reversal keeps count, length, gaps, "
            "intervals, names, tags and negates every strand in inverted order; complement is an involution on all 256 bytes; "
            "reverse_complement twice = identity on every byte string; for every buffer size the minus-strand chunk iterator "
            "delivers the reverse complement of the forward one (chunkwise: reversed list of reverse-complemented chunks). "
            "Streaming a reversed scaffold vs the original is compared with /repo and judged by an oracle; strand-0 fragments "
            "violate it (known finding, listed in known_findings.json). " + CORR,
            NOTE + "The chunk theorems assume good_access (random access returns residues s..e), shown satisfiable and proved for rendered files under C04.",
            "Coq proof (finite sweep over ascii + list induction + chunk arithmetic) + in-Coq correspondence + streaming oracle",
            "DESIGN.md 6/C14"),
})

NOT_YET = "check not built yet in this session (see DESIGN.md section 6 for the planned theorem and correspondence)"


def main():
    checks = []
    for pid in ALL:
        if pid not in CLAIMED:
            continue
        text, note, tech, ref = CLAIMED[pid]
        checks.append(
            {
                "property_id": pid,
                "quick_cmd": f"./check {pid} --tier quick",
                "thorough_cmd": f"./check {pid} --tier thorough",
                "evidence_file": f"/verif/evidence/{pid}.json",
                "replay_cmd_template": f"./check {pid} --replay {{path}}",
                "engine": "coq-model+correspondence",
                "level_claimed": {"category": "proof", "text": text, "design_ref": ref},
                "level_note": note,
                "technique": tech,
            }
        )
    man = {
        "version": 1,
        "setup_cmd": "cd /verif && ./check --setup",
        "hooks": {
            "guard": "TOLA_VERIF",
            "enable": "no source hooks are needed: every observation point is a public method, a written file or an exit status; ./check exports TOLA_VERIF=1 for uniformity",
            "baseline_off_cmd": "cd /repo && env -u TOLA_VERIF /venv/bin/python -m pytest -ra -q -p no:cacheprovider --timeout=900 --continue-on-collection-errors",
            "source_commits": [],
            "add_only": True,
        },
        "engines": [
            {
                "name": "coq-model+correspondence",
                "path": "/verif/coq, /verif/harness",
                "serves_properties": sorted(CLAIMED),
                "kind_free_text": "Coq 8.16 development (hand-written Gallina model + theorems) and a Python harness that evaluates the model inside Coq on the same inputs as /repo's code, with independent oracles for failing-input search",
            }
        ],
        "checks": checks,
        "notes": "Entry point ./check <id> --tier quick|thorough. Known findings: /verif/known_findings.json. Seeded mutants: /verif/seeded/.",
        "not_applicable": [{"property_id": p, "reason": NOT_YET} for p in ALL if p not in CLAIMED],
    }
    (V / "MANIFEST.json").write_text(json.dumps(man, indent=1) + "\n")
    try:
        import jsonschema

        jsonschema.validate(man, json.loads(Path("/root/.vp/MANIFEST.schema.json").read_text()))
        print("MANIFEST.json valid;", len(checks), "checks")
    except ImportError:
        print("MANIFEST.json written (jsonschema not available)")


if __name__ == "__main__":
    main()
