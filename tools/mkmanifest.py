#!/venv/bin/python
"""Regenerates MANIFEST.json from the table below and validates it."""
import json
from pathlib import Path

V = Path(__file__).resolve().parents[1]
ALL = [f"C{i:02d}" for i in range(1, 21)]

# pid -> (level text, level note, technique, design ref)
CLAIMED = {
    "C19": (
        "Coq theorems (unbounded, lia): overlap symmetric; overlap iff same name and a common base; overlap "
        "length = size of the intersection; abut iff gap 0; trichotomy; all-against-all scan = the overlapping "
        "position pairs i<j, each once. The model functions are tied to /repo on every run by evaluating them "
        "inside Coq on every interval pair over a bounded range plus random assemblies and comparing with "
        "Fragment.overlaps/overlap_length/abuts/gap_between and Assembly.find_overlapping_fragments "
        "(and asm-format --qc-overlaps stderr through an independent oracle).",
        "Trusted: Coq kernel+VM; hand-written Gallina reading of fragment.py/assembly.py (scan order, None for "
        "empty); serializer; correspondence is differential on generated cases, not a proof about Python. "
        "Print Assumptions: closed under the global context for all 8 theorems.",
        "Coq proof (lia, induction) + in-Coq vm_compute correspondence with /repo + brute-force oracle",
        "DESIGN.md 6/C19",
    ),
}

NOT_YET = "check not built yet in this session (see DESIGN.md section 6 for the planned theorem and correspondence)"


def main():
    checks = []
    for pid in ALL:
        if pid not in CLAIMED:
            continue
        text, note, tech, ref = CLAIMED[pid]
        checks.append(
            {
                "property_id": pid,
                "quick_cmd": f"./check {pid} --tier quick",
                "thorough_cmd": f"./check {pid} --tier thorough",
                "evidence_file": f"/verif/evidence/{pid}.json",
                "replay_cmd_template": f"./check {pid} --replay {{path}}",
                "engine": "coq-model+correspondence",
                "level_claimed": {"category": "proof", "text": text, "design_ref": ref},
                "level_note": note,
                "technique": tech,
            }
        )
    man = {
        "version": 1,
        "setup_cmd": "cd /verif && ./check --setup",
        "hooks": {
            "guard": "TOLA_VERIF",
            "enable": "no source hooks are needed: every observation point is a public method, a written file or an exit status; ./check exports TOLA_VERIF=1 for uniformity",
            "baseline_off_cmd": "cd /repo && env -u TOLA_VERIF /venv/bin/python -m pytest -ra -q -p no:cacheprovider --timeout=900 --continue-on-collection-errors",
            "source_commits": [],
            "add_only": True,
        },
        "engines": [
            {
                "name": "coq-model+correspondence",
                "path": "/verif/coq, /verif/harness",
                "serves_properties": sorted(CLAIMED),
                "kind_free_text": "Coq 8.16 development (hand-written Gallina model + theorems) and a Python harness that evaluates the model inside Coq on the same inputs as /repo's code, with independent oracles for failing-input search",
            }
        ],
        "checks": checks,
        "notes": "Entry point ./check <id> --tier quick|thorough. Known findings: /verif/known_findings.json. Seeded mutants: /verif/seeded/.",
        "not_applicable": [{"property_id": p, "reason": NOT_YET} for p in ALL if p not in CLAIMED],
    }
    (V / "MANIFEST.json").write_text(json.dumps(man, indent=1) + "\n")
    try:
        import jsonschema

        jsonschema.validate(man, json.loads(Path("/root/.vp/MANIFEST.schema.json").read_text()))
        print("MANIFEST.json valid;", len(checks), "checks")
    except ImportError:
        print("MANIFEST.json written (jsonschema not available)")


if __name__ == "__main__":
    main()
