#!/venv/bin/python
"""Confirm a seeded change (tests still pass, demo fails with it and passes
without) in its scratch worktree, run our quick check(s) against it in /repo,
revert, and file it under /verif/seeded/<id>-<k>/."""
import json
import shutil
import subprocess
import sys
from pathlib import Path

V = Path("/verif")
# the checks are run against a scratch worktree of /repo (VERIF_REPO), never against /repo itself,
# so that long runs that read /repo are not disturbed
import os
R = os.environ.get("SEEDREPO", "/tmp/seedrepo")


def sh(cmd, cwd=None, timeout=1800):
    p = subprocess.run(cmd, shell=True, cwd=cwd, capture_output=True, text=True, timeout=timeout)
    return p.returncode, (p.stdout + p.stderr)


def main():
    pid = sys.argv[1]
    extra = sys.argv[2:]          # further property ids to run the patch against
    wt = Path(f"/tmp/seed_{pid}")
    out = wt / "_out"
    ks = [int(x) for x in os.environ["ONLY_K"].split(",")] if os.environ.get("ONLY_K") else range(1, 21)
    for k in ks:
        patch = out / f"patch{k}.diff"
        if not patch.exists():
            continue
        demo = out / f"demo{k}.py"
        meta = json.loads((out / f"meta{k}.json").read_text()) if (out / f"meta{k}.json").exists() else {}
        env = f"PYTHONPATH={wt}/src"
        sh("git checkout -- . && git clean -fdq src tests", cwd=wt)
        rc0, o0 = sh(f"{env} /venv/bin/python {demo}", cwd=wt)
        rca, oa = sh(f"git apply {patch}", cwd=wt)
        rct, ot = sh(f"{env} /venv/bin/python -m pytest -q -p no:cacheprovider 2>&1 | tail -1", cwd=wt)
        rc1, o1 = sh(f"{env} /venv/bin/python {demo}", cwd=wt)
        sh("git checkout -- . && git clean -fdq src tests", cwd=wt)
        confirmed = rc0 == 0 and rca == 0 and "64 passed" in ot and rc1 != 0
        result = {"demo_without": rc0, "applies": rca == 0, "tests": ot.strip(), "demo_with": rc1, "confirmed": confirmed,
                  "demo_message": o1.strip()[-300:]}
        detect = {}
        if confirmed:
            if not Path(R).exists():
                sh(f"git -C /repo worktree add --detach {R} HEAD")
            if subprocess.run(f"git -C {R} diff --quiet", shell=True).returncode != 0:
                print(f"{R} dirty; abort")
                return 2
            rc, o = sh(f"git -C {R} apply {patch}")
            try:
                for p in [pid] + extra:
                    rcc, oc = sh(f"VERIF_REPO={R} ./check {p} --tier quick", cwd=V, timeout=3000)
                    lines = [ln for ln in oc.splitlines() if ln.startswith(("VIOLATION", "KNOWN-FINDING")) or " quick:" in ln]
                    detect[p] = {"exit": rcc, "lines": lines[:4]}
            finally:
                sh(f"git -C {R} checkout -- . && git -C {R} clean -fdq src tests")
        d = V / "seeded" / f"{pid}-{k}"
        d.mkdir(parents=True, exist_ok=True)
        shutil.copy(patch, d / "patch.diff")
        if demo.exists():
            shutil.copy(demo, d / "demo.py")
        meta.update({"property": pid, "confirmation": result, "checks_run": detect,
                     "how_run": "tools/process_seed.py: demo without patch, git apply, pytest, demo with patch (scratch worktree); then git apply in a scratch worktree of /repo (VERIF_REPO), ./check <id> --tier quick, git checkout -- ."})
        (d / "meta.json").write_text(json.dumps(meta, indent=1))
        caught = {p: (v["exit"] == 1) for p, v in detect.items()}
        print(f"{pid}-{k}: confirmed={confirmed} caught={caught} :: {meta.get('summary', '')[:110]}")
        for p, v in detect.items():
            for ln in v["lines"][:2]:
                print("     ", p, ln[:160])


if __name__ == "__main__":
    sys.exit(main())
