#!/venv/bin/python
"""Write the prompt for a seeding sub-agent: tools/mkseedprompt.py <Cnn> <k1> <k2> <directive-file> > prompt.txt
The agent sees only the property record and its own scratch worktree /tmp/seed_<Cnn> (never /verif or /repo)."""
import json
import sys

pid, k1, k2, dfile = sys.argv[1], sys.argv[2], sys.argv[3], sys.argv[4]
prop = next(json.loads(l) for l in open("/verif/properties.jsonl") if json.loads(l)["id"] == pid)
directive = open(dfile).read().strip()
W = f"/tmp/seed_{pid}"
print(f"""You are helping to evaluate a verification framework for the Python project sanger-tol/agp-tpf-utils (CLI utilities for AGP/TPF genome assembly files, with a streaming FASTA indexer/writer). You have your own scratch git worktree of the project at {W} (source under {W}/src/tola, tests under {W}/tests). Work ONLY inside {W}. Do not read, list or touch /verif or /repo at all (they are off limits for this task), and do not look at other /tmp/seed_* directories.

Here is one semantic property the project is supposed to satisfy (JSON record):

{json.dumps(prop, indent=1)}

YOUR TASK: produce TWO independent, realistic changes ("seeded defects") to the project's source (under src/tola only, never tests), each of which
  (a) BREAKS this property (for some input / sequence / configuration the property quantifies over), while
  (b) the code still imports and the WHOLE existing test suite still passes unchanged: run
        cd {W} && PYTHONPATH={W}/src /venv/bin/python -m pytest -q -p no:cacheprovider
      and it must report 64 passed, and
  (c) looks like something a maintainer could plausibly commit: a refactor, an "optimisation", a tidy-up, a defensive guard, a copy/paste slip, a changed default, an API misuse - not sabotage, no dead code, no special-casing of magic values, no random or time-dependent behaviour.
The change must NOT be one that ordinary use would expose at once. It must need something specific to manifest, such as: an unusual input (a particular shape, boundary value or combination of values that ordinary use and the existing tests never produce); a multi-step sequence of operations on the same objects / files / process; two cooperating edit sites that each look fine on their own and only break the property together; a crash, fault or interleaving at one particular point. Prefer the subtle over the blunt: earlier rounds of this exercise already used the most obvious one-line slips in the functions named in the anchors, so look for something different. The two changes must differ from each other in mechanism and site. {directive}

For each change k in ({k1}, {k2}) write these files into {W}/_out/ (create the directory):
  patch{{k}}.diff : `git diff` of the change against the worktree's HEAD (only files under src/), made so that `git apply patch{{k}}.diff` works on a clean checkout.
  demo{{k}}.py    : a small self-contained Python program (run as: PYTHONPATH={W}/src /venv/bin/python demo{{k}}.py, cwd = the worktree) that checks the PROPERTY (not the implementation detail) on a concrete input/sequence: it must exit 0 on the unmodified code and exit non-zero (assertion or sys.exit(1), printing what went wrong) with the change applied. It may create temporary files/directories with tempfile and must clean them up. It must not depend on network, on the current time, or on anything outside the worktree and the Python standard library plus the project itself (click, PyYAML etc. that the project already uses are fine).
  meta{{k}}.json  : {{"summary": "<what was changed, where, and why it looks harmless>", "needs": "<what specific input / sequence / interleaving / configuration is needed for the breakage to manifest and why ordinary use and the existing tests do not hit it>", "files": ["src/tola/..."]}}

Procedure: read the code the property is anchored in and whatever else you need (README, tests, tests/data). Design a change; apply it in the worktree; run the full test suite (must be 64 passed); write the demo and verify it FAILS with the change; `git diff -- src > _out/patch{{k}}.diff`; then `git checkout -- src` and verify the demo PASSES (exit 0) on the clean tree and that `git apply --check _out/patch{{k}}.diff` succeeds. Repeat for the second change. Leave the worktree clean at the end (git status shows only the untracked _out/). If a candidate change makes a test fail, pick a different change rather than editing tests. Do not commit anything.

Your final answer should be a short report: for each of the two changes, one paragraph (what, where, what it needs), and the exact pytest tail line and demo exit codes you observed (with and without the change).
Keep every message you write short (a few lines); do not paste long outputs. Finish within about 15 minutes of work.""")
